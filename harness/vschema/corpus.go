package vschema

import (
	"fmt"

	"google.golang.org/protobuf/proto"
	"google.golang.org/protobuf/types/descriptorpb"
)

// SplitMix64 PRNG: every random choice in the harness derives from one state.
type Rand struct{ s uint64 }

func NewRand(seed uint64) *Rand { return &Rand{s: seed*0x9E3779B97F4A7C15 + 0x1234567} }
func (r *Rand) U64() uint64 {
	r.s += 0x9E3779B97F4A7C15
	z := r.s
	z = (z ^ (z >> 30)) * 0xBF58476D1CE4E5B9
	z = (z ^ (z >> 27)) * 0x94D049BB133111EB
	return z ^ (z >> 31)
}
func (r *Rand) Intn(n int) int {
	if n <= 0 {
		return 0
	}
	return int(r.U64() % uint64(n))
}
func (r *Rand) Bool() bool        { return r.U64()&1 == 1 }
func (r *Rand) Chance(p int) bool { return r.Intn(100) < p }

var allKinds = []Kind{Int32, Int64, Uint32, Uint64, Sint32, Sint64, Bool, Enum, Fixed32, Sfixed32, Float, Fixed64, Sfixed64, Double, String, Bytes}

func keyKinds() []Kind {
	var ks []Kind
	for _, k := range allKinds {
		if k.ValidMapKey() {
			ks = append(ks, k)
		}
	}
	return ks
}

var TagWidthNums = []int{1, 15, 16, 2047, 2048, 262143, 262144, 33554431, 33554432, 536870911}

func corpusSchema(id string) *Schema {
	return &Schema{ID: id, Package: "vc." + id, GoPkg: "github.com/cosmos/cosmos-proto/internal/verifcorpus/" + id, Supported: true}
}

// Matrix: every kind x shape, every tag width, every map key kind; full adds every key x value pair.
func Matrix(full bool) []*Schema {
	s := corpusSchema("mx")
	// M0: all singular kinds + message + recursive
	m0 := Msg{Name: "M0"}
	for i, k := range allKinds {
		m0.Fields = append(m0.Fields, Field{Num: i + 1, Kind: k, Shape: Singular})
	}
	m0.Fields = append(m0.Fields, Field{Num: 17, IsMsg: true, Msg: 1, Shape: Singular})
	m0.Fields = append(m0.Fields, Field{Num: 18, IsMsg: true, Msg: 0, Shape: Singular})
	// M1: small child, self recursive, with a map (maps at depth)
	m1 := Msg{Name: "M1", Fields: []Field{
		{Num: 1, Kind: Int64, Shape: Singular},
		{Num: 2, Kind: String, Shape: Singular},
		{Num: 3, IsMsg: true, Msg: 1, Shape: Singular},
		{Num: 4, Kind: Sint32, Shape: Map, Key: String},
		{Num: 5, Kind: Bytes, Shape: Repeated},
	}}
	// M2: repeated packed (default), string/bytes/message lists
	m2 := Msg{Name: "M2"}
	n := 1
	for _, k := range allKinds {
		m2.Fields = append(m2.Fields, Field{Num: n, Kind: k, Shape: Repeated, Packed: k.Packable()})
		n++
	}
	m2.Fields = append(m2.Fields, Field{Num: n, IsMsg: true, Msg: 1, Shape: Repeated})
	// M3: repeated unpacked, declared in descending number order (declaration order != number order)
	m3 := Msg{Name: "M3"}
	n = 40
	for _, k := range allKinds {
		if k.Packable() {
			m3.Fields = append(m3.Fields, Field{Num: n, Kind: k, Shape: Repeated, Packed: false})
			n--
		}
	}
	// M4: two interleaved oneofs with every kind, among plain fields
	m4 := Msg{Name: "M4"}
	m4.Fields = append(m4.Fields, Field{Num: 100, Kind: Int32, Shape: Singular})
	for i, k := range allKinds {
		m4.Fields = append(m4.Fields, Field{Num: 50 - i, Kind: k, Shape: Oneof, Group: 0})
	}
	m4.Fields = append(m4.Fields, Field{Num: 2, IsMsg: true, Msg: 1, Shape: Oneof, Group: 0})
	m4.Fields = append(m4.Fields, Field{Num: 1, Kind: String, Shape: Singular})
	m4.Fields = append(m4.Fields, Field{Num: 60, Kind: Uint64, Shape: Oneof, Group: 1})
	m4.Fields = append(m4.Fields, Field{Num: 3, IsMsg: true, Msg: 4, Shape: Oneof, Group: 1})
	m4.Fields = append(m4.Fields, Field{Num: 61, Kind: Bool, Shape: Oneof, Group: 1})
	m4.Fields = append(m4.Fields, Field{Num: 4, Kind: Bytes, Shape: Singular})
	// M5: maps
	m5 := Msg{Name: "M5"}
	n = 1
	for _, kk := range keyKinds() {
		m5.Fields = append(m5.Fields, Field{Num: n, Kind: allKinds[(n*5)%len(allKinds)], Shape: Map, Key: kk})
		n++
	}
	for _, vk := range allKinds {
		m5.Fields = append(m5.Fields, Field{Num: n, Kind: vk, Shape: Map, Key: String})
		n++
	}
	m5.Fields = append(m5.Fields, Field{Num: n, IsMsg: true, Msg: 1, Shape: Map, Key: String})
	n++
	m5.Fields = append(m5.Fields, Field{Num: n, IsMsg: true, Msg: 5, Shape: Map, Key: Int32})
	// M6: tag widths
	m6 := Msg{Name: "M6"}
	for i, num := range TagWidthNums {
		f := Field{Num: num}
		switch i % 5 {
		case 0:
			f.Kind, f.Shape = Uint32, Singular
		case 1:
			f.Kind, f.Shape, f.Packed = Sint64, Repeated, true
		case 2:
			f.Kind, f.Shape = String, Repeated
		case 3:
			f.IsMsg, f.Msg, f.Shape = true, 1, Singular
		case 4:
			f.Kind, f.Shape, f.Key = Fixed32, Map, Int64
		}
		m6.Fields = append(m6.Fields, f)
	}
	m6.Fields = append(m6.Fields, Field{Num: 7, Kind: Double, Shape: Oneof, Group: 0})
	m6.Fields = append(m6.Fields, Field{Num: 268435456, Kind: String, Shape: Oneof, Group: 0})
	// M7: empty message; M8 holds lists/maps/oneof of the empty message
	m7 := Msg{Name: "M7"}
	m8 := Msg{Name: "M8", Fields: []Field{
		{Num: 1, IsMsg: true, Msg: 7, Shape: Repeated},
		{Num: 2, IsMsg: true, Msg: 7, Shape: Map, Key: Bool},
		{Num: 3, IsMsg: true, Msg: 7, Shape: Oneof, Group: 0},
		{Num: 4, IsMsg: true, Msg: 7, Shape: Singular},
	}}
	// M9: tag-width boundaries (tag value 2^7k and its neighbours) for every wire type and shape
	m9 := Msg{Name: "M9"}
	bi := 0
	for _, base := range []int{16, 2048, 262144, 33554432} {
		for d := -1; d <= 1; d++ {
			num := base + d
			f := Field{Num: num}
			switch bi % 6 {
			case 0:
				f.Kind, f.Shape = Int32, Singular
			case 1:
				f.Kind, f.Shape = Uint64, Singular
			case 2:
				f.Kind, f.Shape = Bool, Repeated // unpacked varint
			case 3:
				f.Kind, f.Shape = Sfixed32, Singular
			case 4:
				f.Kind, f.Shape = Double, Singular
			case 5:
				f.Kind, f.Shape = String, Singular
			}
			bi++
			m9.Fields = append(m9.Fields, f)
		}
	}
	// the exact boundaries again with wire type 0 in the remaining shapes
	m10 := Msg{Name: "M10", Fields: []Field{
		{Num: 16, Kind: Sint64, Shape: Singular},
		{Num: 2048, Kind: Enum, Shape: Repeated, Packed: false},
		{Num: 262144, Kind: Int64, Shape: Oneof, Group: 0},
		{Num: 33554432, Kind: Uint32, Shape: Oneof, Group: 0},
		{Num: 2, Kind: Int32, Shape: Map, Key: Int32},
		{Num: 15, Kind: Bool, Shape: Singular},
		{Num: 536870911, Kind: Sint32, Shape: Singular},
	}}
	// M11: several oneofs whose declaration order differs from the order of their field numbers
	// (first oneof on high numbers, second on low ones, third nested inside the range of the first)
	m11 := Msg{Name: "M11", Fields: []Field{
		{Num: 10, Kind: Int32, Shape: Oneof, Group: 0},
		{Num: 11, Kind: String, Shape: Oneof, Group: 0},
		{Num: 2, Kind: Uint64, Shape: Oneof, Group: 1},
		{Num: 3, Kind: Bytes, Shape: Oneof, Group: 1},
		{Num: 1, Kind: Bool, Shape: Oneof, Group: 2},
		{Num: 20, IsMsg: true, Msg: 1, Shape: Oneof, Group: 2},
		{Num: 5, Kind: Sint32, Shape: Singular},
		{Num: 15, Kind: Fixed64, Shape: Repeated, Packed: true},
	}}
	// M12: reaches itself through map values only (plus a scalar at every level)
	m12 := Msg{Name: "M12", Fields: []Field{
		{Num: 1, IsMsg: true, Msg: 12, Shape: Map, Key: Int32},
		{Num: 2, Kind: Int32, Shape: Singular},
	}}
	// M13: every length-delimited construct behind 4- and 5-byte keys (the size of "key + prefix + payload" is where
	// a prefix computed over the wrong quantity shows, and only at payload sizes next to 128 / 16384)
	m13 := Msg{Name: "M13", Fields: []Field{
		{Num: 300001, Kind: Float, Shape: Repeated, Packed: true},
		{Num: 300002, Kind: Sfixed32, Shape: Repeated, Packed: true},
		{Num: 300003, Kind: Double, Shape: Repeated, Packed: true},
		{Num: 300004, Kind: Int64, Shape: Repeated, Packed: true},
		{Num: 300005, Kind: String, Shape: Singular},
		{Num: 300006, Kind: Bytes, Shape: Repeated},
		{Num: 300007, IsMsg: true, Msg: 13, Shape: Singular},
		{Num: 300008, Kind: Bytes, Shape: Map, Key: String},
		{Num: 40000001, Kind: Fixed32, Shape: Repeated, Packed: true},
		{Num: 40000002, Kind: Bool, Shape: Repeated, Packed: true},
		{Num: 40000003, Kind: String, Shape: Oneof, Group: 0},
		{Num: 40000004, IsMsg: true, Msg: 13, Shape: Oneof, Group: 0},
		{Num: 40000005, IsMsg: true, Msg: 13, Shape: Repeated},
		{Num: 40000006, IsMsg: true, Msg: 13, Shape: Map, Key: Uint32},
		{Num: 7, Kind: Sfixed64, Shape: Repeated, Packed: true},
	}}
	// M14: NO oneof, declaration order the reverse of number order, and the fields that need an entry in the
	// generated dependency tables (message / enum / map typed, of DIFFERENT types) interleaved with scalars: whatever
	// reorders the generator's field list for one purpose (marshal order) must not leak into another (type tables)
	m14 := Msg{Name: "M14", Fields: []Field{
		{Num: 12, IsMsg: true, Msg: 1, Shape: Singular},
		{Num: 11, Kind: Enum, Shape: Singular},
		{Num: 10, IsMsg: true, Msg: 11, Shape: Repeated},
		{Num: 9, Kind: Int32, Shape: Singular},
		{Num: 8, IsMsg: true, Msg: 12, Shape: Map, Key: String},
		{Num: 7, Kind: Enum, Shape: Repeated, Packed: true},
		{Num: 6, IsMsg: true, Msg: 14, Shape: Singular},
		{Num: 5, Kind: Enum, Shape: Map, Key: Int64},
		{Num: 4, Kind: String, Shape: Repeated},
		{Num: 3, IsMsg: true, Msg: 13, Shape: Singular},
		{Num: 2, IsMsg: true, Msg: 1, Shape: Map, Key: Bool},
		{Num: 1, Kind: Bytes, Shape: Singular},
	}}
	// M15: SEVERAL map fields of the same shape (same key kind, same value kind / type) in one message — code shared
	// between "equal" fields must still write each field's own number — next to maps that differ in one component only
	m15 := Msg{Name: "M15", Fields: []Field{
		{Num: 2, Kind: String, Shape: Map, Key: String},
		{Num: 3, Kind: String, Shape: Map, Key: String},
		{Num: 4, Kind: Int64, Shape: Map, Key: String},
		{Num: 5, Kind: Int64, Shape: Map, Key: String},
		{Num: 16, IsMsg: true, Msg: 1, Shape: Map, Key: Int32},
		{Num: 2047, IsMsg: true, Msg: 1, Shape: Map, Key: Int32},
		{Num: 7, IsMsg: true, Msg: 12, Shape: Map, Key: Int32},
		{Num: 8, Kind: Enum, Shape: Map, Key: Bool},
		{Num: 9, Kind: Enum, Shape: Map, Key: Bool},
		{Num: 10, Kind: Bytes, Shape: Repeated},
		{Num: 11, Kind: Bytes, Shape: Repeated},
		{Num: 1, Kind: String, Shape: Singular},
	}}
	// M16 / M17: numbering that is neither increasing nor decreasing in declaration order, with the LAST declared
	// number equal to the number of fields while larger numbers exist (any "the fields are 1..n" shortcut taken from
	// a count or from the last field is wrong here), scalars of every wire type plus a message
	m16 := Msg{Name: "M16", Fields: []Field{
		{Num: 1, Kind: Int32, Shape: Singular},
		{Num: 4, Kind: String, Shape: Singular},
		{Num: 3, Kind: Bool, Shape: Singular},
	}}
	m17 := Msg{Name: "M17", Fields: []Field{
		{Num: 2, Kind: Fixed64, Shape: Singular},
		{Num: 9, IsMsg: true, Msg: 16, Shape: Singular},
		{Num: 1, Kind: Sfixed32, Shape: Repeated, Packed: true},
		{Num: 17, Kind: Bytes, Shape: Singular},
		{Num: 6, Kind: Sint64, Shape: Singular},
		{Num: 5, Kind: String, Shape: Repeated},
	}}
	// M18: repeated message fields behind TWO-byte keys (17, 33, 130, 2047) next to length-delimited fields — oneof
	// members, which are written after all regular fields, and a regular string — whose ONE-byte key is the first
	// key byte's low bits (N mod 16 = 1, 2) : a decoder that recognises "the same key follows" by masking bytes
	// confuses `0a 01` (field 1, length 1) with the key of field 17, `0a 02` with that of field 33, ...
	m18 := Msg{Name: "M18", OneofNames: []string{"choice"}, Fields: []Field{
		{Num: 17, IsMsg: true, Msg: 1, Shape: Repeated},
		{Num: 33, IsMsg: true, Msg: 16, Shape: Repeated},
		{Num: 130, IsMsg: true, Msg: 1, Shape: Repeated},
		{Num: 2047, IsMsg: true, Msg: 16, Shape: Repeated},
		{Num: 1, Kind: String, Shape: Oneof, Group: 0},
		{Num: 2, Kind: Bytes, Shape: Oneof, Group: 0},
		{Num: 15, IsMsg: true, Msg: 16, Shape: Oneof, Group: 0},
	}}
	// M19: oneofs whose members have EQUAL constant wire size (same width class, same tag length), and a third of
	// another size: per-member code merged "because it is the same" must keep the per-member nil handling
	m19 := Msg{Name: "M19", OneofNames: []string{"w4", "w8", "w1"}, Fields: []Field{
		{Num: 1, Kind: String, Shape: Singular},
		{Num: 2, Kind: Fixed32, Shape: Oneof, Group: 0},
		{Num: 3, Kind: Float, Shape: Oneof, Group: 0},
		{Num: 4, Kind: Sfixed32, Shape: Oneof, Group: 0},
		{Num: 5, Kind: String, Shape: Oneof, Group: 0},
		{Num: 6, Kind: Fixed64, Shape: Oneof, Group: 1},
		{Num: 7, Kind: Double, Shape: Oneof, Group: 1},
		{Num: 8, Kind: Sfixed64, Shape: Oneof, Group: 1},
		{Num: 9, Kind: Bool, Shape: Oneof, Group: 2},
		{Num: 10, Kind: Bool, Shape: Oneof, Group: 2},
		{Num: 11, IsMsg: true, Msg: 16, Shape: Oneof, Group: 2},
	}}
	s.Msgs = []Msg{m0, m1, m2, m3, m4, m5, m6, m7, m8, m9, m10, m11, m12, m13, m14, m15, m16, m17, m18, m19}
	out := []*Schema{s}
	if full {
		// every key kind x every value kind (+ message), 3 schemas to keep packages small
		kk := keyKinds()
		for part := 0; part < 3; part++ {
			sp := corpusSchema(fmt.Sprintf("mxmap%d", part))
			child := Msg{Name: "C", Fields: []Field{{Num: 1, Kind: Sint64, Shape: Singular}, {Num: 2, Kind: String, Shape: Repeated}}}
			mm := Msg{Name: "P"}
			num := 1
			for ki := part; ki < len(kk); ki += 3 {
				for _, vk := range allKinds {
					mm.Fields = append(mm.Fields, Field{Num: num, Kind: vk, Shape: Map, Key: kk[ki]})
					num += 7
				}
				mm.Fields = append(mm.Fields, Field{Num: num, IsMsg: true, Msg: 0, Shape: Map, Key: kk[ki]})
				num += 7
			}
			sp.Msgs = []Msg{child, mm}
			out = append(out, sp)
		}
		// tag widths x shapes
		st := corpusSchema("mxtag")
		ch := Msg{Name: "C", Fields: []Field{{Num: 536870911, Kind: Int32, Shape: Singular}}}
		t := Msg{Name: "T"}
		shapes := 0
		used := map[int]bool{}
		for _, num := range TagWidthNums {
			for j := 0; j < 6 && num+j <= 536870911; j++ {
				f := Field{Num: num + j}
				if used[num+j] || (j > 0 && containsInt(TagWidthNums, num+j)) {
					continue
				}
				used[num+j] = true
				switch (shapes) % 6 {
				case 0:
					f.Kind, f.Shape = Sint32, Singular
				case 1:
					f.Kind, f.Shape, f.Packed = Uint64, Repeated, true
				case 2:
					f.Kind, f.Shape, f.Packed = Enum, Repeated, false
				case 3:
					f.IsMsg, f.Msg, f.Shape = true, 0, Repeated
				case 4:
					f.Kind, f.Shape, f.Key = String, Map, Uint32
				case 5:
					// one single-member oneof per occurrence (members of one group must be consecutive)
					f.Kind, f.Shape, f.Group = Bytes, Oneof, shapes/6
				}
				shapes++
				t.Fields = append(t.Fields, f)
			}
		}
		st.Msgs = []Msg{ch, t}
		out = append(out, st)
	}
	return out
}

func containsInt(xs []int, x int) bool {
	for _, y := range xs {
		if x == y {
			return true
		}
	}
	return false
}

// Random proto3 schemas.
func Random(seed uint64, count int) []*Schema {
	var out []*Schema
	r := NewRand(seed ^ 0xC0FFEE)
	for c := 0; c < count; c++ {
		s := corpusSchema(fmt.Sprintf("rnd%d", c))
		nm := 1 + r.Intn(4)
		for mi := 0; mi < nm; mi++ {
			m := Msg{Name: fmt.Sprintf("R%d", mi)}
			nf := r.Intn(10)
			if mi == 0 {
				nf = 3 + r.Intn(10)
			}
			used := map[int]bool{}
			ngroups := 0
			for fi := 0; fi < nf; fi++ {
				var num int
				for {
					switch r.Intn(6) {
					case 0:
						num = TagWidthNums[r.Intn(len(TagWidthNums))]
					case 1:
						num = 1 + r.Intn(536870911)
					default:
						num = 1 + r.Intn(40)
					}
					if !used[num] && !(num >= 19000 && num <= 19999) {
						break
					}
				}
				used[num] = true
				f := Field{Num: num}
				if r.Chance(25) {
					f.IsMsg, f.Msg = true, r.Intn(nm)
				} else {
					f.Kind = allKinds[r.Intn(len(allKinds))]
				}
				switch r.Intn(5) {
				case 0, 1:
					f.Shape = Singular
				case 2:
					f.Shape = Repeated
					f.Packed = !f.IsMsg && f.Kind.Packable() && r.Chance(70)
				case 3:
					f.Shape = Oneof
					if ngroups == 0 || r.Chance(30) {
						ngroups++
					}
					f.Group = r.Intn(ngroups)
				case 4:
					f.Shape = Map
					kk := keyKinds()
					f.Key = kk[r.Intn(len(kk))]
				}
				m.Fields = append(m.Fields, f)
			}
			// oneof groups must be contiguous index ranges 0..ngroups-1 with ≥1 member each, and
			// group indexes must be in order of first appearance (protoc assigns them that way)
			remap := map[int]int{}
			for i := range m.Fields {
				if m.Fields[i].Shape == Oneof {
					g := m.Fields[i].Group
					if _, ok := remap[g]; !ok {
						remap[g] = len(remap)
					}
					m.Fields[i].Group = remap[g]
				}
			}
			// protodesc requires the members of a oneof to be declared consecutively
			var ordered []Field
			done := map[int]bool{}
			for _, f := range m.Fields {
				if f.Shape != Oneof {
					ordered = append(ordered, f)
					continue
				}
				if done[f.Group] {
					continue
				}
				done[f.Group] = true
				for _, g := range m.Fields {
					if g.Shape == Oneof && g.Group == f.Group {
						ordered = append(ordered, g)
					}
				}
			}
			m.Fields = ordered
			s.Msgs = append(s.Msgs, m)
		}
		out = append(out, s)
	}
	return out
}

// Names: field / oneof names colliding with protoreflect.Message methods, with methods of the
// generated struct, and with identifiers the generated code uses.
func Names() []*Schema {
	s := corpusSchema("nm")
	methodNames := []string{"descriptor", "type", "new", "interface", "range", "has", "clear", "get", "set", "mutable",
		"new_field", "which_oneof", "get_unknown", "set_unknown", "is_valid", "proto_methods", "proto_reflect",
		"reset", "string", "proto_message"}
	n0 := Msg{Name: "N0"}
	for i, nm := range methodNames {
		f := Field{Num: i + 1, Name: nm, Kind: allKinds[i%len(allKinds)], Shape: Singular}
		if i%5 == 4 {
			f.Shape, f.Packed = Repeated, f.Kind.Packable()
		}
		n0.Fields = append(n0.Fields, f)
	}
	idents := []string{"x", "l", "n", "i", "d_at_a", "i_nd_ex", "options", "input", "size", "wire", "fd", "value", "mapkey", "mapvalue", "err", "v", "k"}
	n1 := Msg{Name: "N1", OneofNames: []string{"type", "descriptor", "range"}}
	n1.Fields = append(n1.Fields, Field{Num: 1, Name: "a", Kind: Int32, Shape: Oneof, Group: 0})
	n1.Fields = append(n1.Fields, Field{Num: 2, Name: "b", Kind: String, Shape: Oneof, Group: 0})
	n1.Fields = append(n1.Fields, Field{Num: 3, Name: "c", IsMsg: true, Msg: 0, Shape: Oneof, Group: 1})
	n1.Fields = append(n1.Fields, Field{Num: 4, Name: "d", Kind: Sint64, Shape: Oneof, Group: 1})
	n1.Fields = append(n1.Fields, Field{Num: 5, Name: "e", Kind: Bytes, Shape: Oneof, Group: 2})
	for i, nm := range idents {
		f := Field{Num: 10 + i, Name: nm, Kind: allKinds[(i*3)%len(allKinds)], Shape: Singular}
		if i%4 == 1 {
			f.Shape, f.Key = Map, String
		}
		if i%4 == 2 {
			f.Shape, f.Packed = Repeated, f.Kind.Packable()
		}
		n1.Fields = append(n1.Fields, f)
	}
	// (a field `type_` next to `type` would collide after the rewrite, but proto3 rejects that pair:
	// names that are equal after removing underscores and lower-casing conflict in proto3)
	s.Msgs = []Msg{n0, n1}
	// a second file (other package) whose fields are spelled like the REWRITTEN reserved names, without the
	// reserved siblings: its output must not depend on whether the first file is generated before it
	u := corpusSchema("nu")
	u0 := Msg{Name: "U0", OneofNames: []string{"set_"}}
	for i, nm := range []string{"type_", "get_", "range_", "new_field_", "descriptor_", "has_"} {
		u0.Fields = append(u0.Fields, Field{Num: i + 1, Name: nm, Kind: allKinds[(i*5)%len(allKinds)], Shape: Singular})
	}
	u0.Fields = append(u0.Fields, Field{Num: 10, Name: "oa", Kind: Int32, Shape: Oneof, Group: 0}, Field{Num: 11, Name: "ob", Kind: String, Shape: Oneof, Group: 0})
	u.Msgs = []Msg{u0}
	return []*Schema{s, u}
}

// Graph: well-known types in every shape, messages imported from two other Go packages, nesting three
// deep, mutual recursion across files.
func Graph() []*Schema {
	// leaf package
	ga := corpusSchema("ga")
	ga.Msgs = []Msg{
		{Name: "Leaf", Fields: []Field{{Num: 1, Kind: String, Shape: Singular}, {Num: 2, Kind: Sint64, Shape: Repeated, Packed: true}, {Num: 3, IsMsg: true, Msg: 0, Shape: Singular}}},
		{Name: "Other", Fields: []Field{{Num: 1, IsMsg: true, Msg: 0, Shape: Map, Key: Int32}, {Num: 2, Kind: Bytes, Shape: Oneof, Group: 0}, {Num: 3, IsMsg: true, Msg: 0, Shape: Oneof, Group: 0}}},
	}
	// middle package imports ga
	gb := corpusSchema("gb")
	gb.Imports = []string{"verifcorpus/ga/ga.proto"}
	gb.Msgs = []Msg{
		{Name: "Mid", Fields: []Field{
			{Num: 1, IsMsg: true, Extern: "vc.ga.Leaf", Shape: Singular},
			{Num: 2, IsMsg: true, Extern: "vc.ga.Other", Shape: Repeated},
			{Num: 3, IsMsg: true, Msg: 0, Shape: Map, Key: String},
			{Num: 4, Kind: Enum, Shape: Repeated, Packed: true},
		}},
	}
	// top package imports both and the well-known types
	gc := corpusSchema("gc")
	gc.Imports = []string{"verifcorpus/ga/ga.proto", "verifcorpus/gb/gb.proto", "google/protobuf/any.proto", "google/protobuf/timestamp.proto",
		"google/protobuf/duration.proto", "google/protobuf/field_mask.proto", "google/protobuf/wrappers.proto", "google/protobuf/empty.proto"}
	top := Msg{Name: "Top"}
	wkts := []string{"google.protobuf.Any", "google.protobuf.Timestamp", "google.protobuf.Duration", "google.protobuf.FieldMask", "google.protobuf.StringValue", "google.protobuf.Empty"}
	n := 1
	for _, w := range wkts {
		top.Fields = append(top.Fields, Field{Num: n, IsMsg: true, Extern: w, Shape: Singular})
		n++
		top.Fields = append(top.Fields, Field{Num: n, IsMsg: true, Extern: w, Shape: Repeated})
		n++
		top.Fields = append(top.Fields, Field{Num: n, IsMsg: true, Extern: w, Shape: Map, Key: String})
		n++
	}
	for _, w := range wkts[:4] {
		top.Fields = append(top.Fields, Field{Num: n, IsMsg: true, Extern: w, Shape: Oneof, Group: 0})
		n++
	}
	wk := Msg{Name: "Wk", Fields: append([]Field(nil), top.Fields...)}
	top.Fields = append(top.Fields, Field{Num: n, IsMsg: true, Extern: "vc.gb.Mid", Shape: Singular})
	n++
	top.Fields = append(top.Fields, Field{Num: n, IsMsg: true, Extern: "vc.ga.Leaf", Shape: Repeated})
	n++
	top.Fields = append(top.Fields, Field{Num: n, IsMsg: true, Msg: 1, Shape: Singular})
	inner := Msg{Name: "Inner", Fields: []Field{{Num: 1, IsMsg: true, Msg: 2, Shape: Singular}, {Num: 2, IsMsg: true, Msg: 0, Shape: Singular}}}
	inner2 := Msg{Name: "Inner2", Fields: []Field{{Num: 1, IsMsg: true, Extern: "google.protobuf.Timestamp", Shape: Singular}, {Num: 2, Kind: Int32, Shape: Singular}}}
	gc.Msgs = []Msg{top, inner, inner2, wk}
	return []*Schema{ga, gb, gc}
}

// Nested: a hand-built file with nested message and enum declarations three deep (the neutral Schema
// type only has top-level messages): exercises the flattened message/enum order, the parent-chain
// descriptor lookup and nested Go names (Outer_Middle_Inner).
func Nested() *descriptorpb.FileDescriptorProto {
	opt := descriptorpb.FieldDescriptorProto_LABEL_OPTIONAL.Enum()
	rep := descriptorpb.FieldDescriptorProto_LABEL_REPEATED.Enum()
	msgT := descriptorpb.FieldDescriptorProto_TYPE_MESSAGE.Enum()
	enumT := descriptorpb.FieldDescriptorProto_TYPE_ENUM.Enum()
	f := func(name string, num int32, label *descriptorpb.FieldDescriptorProto_Label, typ *descriptorpb.FieldDescriptorProto_Type, tn string) *descriptorpb.FieldDescriptorProto {
		fp := &descriptorpb.FieldDescriptorProto{Name: proto.String(name), JsonName: proto.String(jsonName(name)), Number: proto.Int32(num), Label: label, Type: typ}
		if tn != "" {
			fp.TypeName = proto.String(tn)
		}
		return fp
	}
	enum := func(name string, vals ...string) *descriptorpb.EnumDescriptorProto {
		e := &descriptorpb.EnumDescriptorProto{Name: proto.String(name)}
		for i, v := range vals {
			e.Value = append(e.Value, &descriptorpb.EnumValueDescriptorProto{Name: proto.String(v), Number: proto.Int32(int32(i * 3))})
		}
		return e
	}
	i32 := descriptorpb.FieldDescriptorProto_TYPE_INT32.Enum()
	str := descriptorpb.FieldDescriptorProto_TYPE_STRING.Enum()
	inner := &descriptorpb.DescriptorProto{Name: proto.String("Inner"), Field: []*descriptorpb.FieldDescriptorProto{f("x", 1, opt, i32, ""), f("deep", 2, opt, enumT, ".vc.nest.Outer.Middle.Inner.Deep")},
		EnumType: []*descriptorpb.EnumDescriptorProto{enum("Deep", "DEEP_A", "DEEP_B")}}
	entry := &descriptorpb.DescriptorProto{Name: proto.String("MEntry"), Options: &descriptorpb.MessageOptions{MapEntry: proto.Bool(true)},
		Field: []*descriptorpb.FieldDescriptorProto{f("key", 1, opt, str, ""), f("value", 2, opt, msgT, ".vc.nest.Outer.Middle.Inner")}}
	middle := &descriptorpb.DescriptorProto{Name: proto.String("Middle"),
		Field: []*descriptorpb.FieldDescriptorProto{f("inner", 1, opt, msgT, ".vc.nest.Outer.Middle.Inner"), f("mode", 2, opt, enumT, ".vc.nest.Outer.Middle.Mode"),
			f("m", 3, rep, msgT, ".vc.nest.Outer.Middle.MEntry")},
		NestedType: []*descriptorpb.DescriptorProto{inner, entry},
		EnumType:   []*descriptorpb.EnumDescriptorProto{enum("Mode", "MODE_SLOW", "MODE_FAST")}}
	outer := &descriptorpb.DescriptorProto{Name: proto.String("Outer"),
		Field:      []*descriptorpb.FieldDescriptorProto{f("middle", 1, opt, msgT, ".vc.nest.Outer.Middle"), f("top", 2, opt, enumT, ".vc.nest.Top")},
		NestedType: []*descriptorpb.DescriptorProto{middle}}
	leaf := &descriptorpb.DescriptorProto{Name: proto.String("Leaf"), Field: []*descriptorpb.FieldDescriptorProto{f("s", 1, opt, str, "")}}
	other := &descriptorpb.DescriptorProto{Name: proto.String("Other"),
		Field: []*descriptorpb.FieldDescriptorProto{f("leaf", 1, opt, msgT, ".vc.nest.Other.Leaf"), f("color", 2, opt, enumT, ".vc.nest.Other.Color"),
			f("far", 3, rep, msgT, ".vc.nest.Outer.Middle.Inner"), f("outer", 4, opt, msgT, ".vc.nest.Outer"), f("modes", 5, rep, enumT, ".vc.nest.Outer.Middle.Mode")},
		NestedType: []*descriptorpb.DescriptorProto{leaf},
		EnumType:   []*descriptorpb.EnumDescriptorProto{enum("Color", "COLOR_RED", "COLOR_GREEN", "COLOR_BLUE")}}
	// Outer_Middle (top-level) next to Outer.Middle (nested): Go name collision candidates
	// ... with `reserved` numbers, ranges and names (retired fields): records with these numbers are unknown fields
	// like any other
	flat := &descriptorpb.DescriptorProto{Name: proto.String("Outer_Flat"), Field: []*descriptorpb.FieldDescriptorProto{f("o", 1, opt, msgT, ".vc.nest.Other"), f("self", 2, opt, msgT, ".vc.nest.Outer_Flat")},
		ReservedRange: []*descriptorpb.DescriptorProto_ReservedRange{{Start: proto.Int32(5), End: proto.Int32(8)}, {Start: proto.Int32(10), End: proto.Int32(11)}, {Start: proto.Int32(100), End: proto.Int32(201)}},
		ReservedName:  []string{"old_name", "older"}}
	// Resource: nested messages declared before AND after a map field of their parent (the synthetic entry
	// type sits between them in nested_type), with field / oneof names that collide with
	// protoreflect.Message methods at both places and one level further down
	reservedMsg := func(name string, nested ...*descriptorpb.DescriptorProto) *descriptorpb.DescriptorProto {
		d := &descriptorpb.DescriptorProto{Name: proto.String(name),
			Field: []*descriptorpb.FieldDescriptorProto{f("type", 1, opt, str, ""), f("get", 2, opt, i32, ""), f("new_field", 3, rep, str, ""),
				f("range", 4, opt, str, ""), f("is_valid", 5, opt, i32, "")},
			OneofDecl:  []*descriptorpb.OneofDescriptorProto{{Name: proto.String("set")}},
			NestedType: nested}
		d.Field[3].OneofIndex = proto.Int32(0)
		d.Field[4].OneofIndex = proto.Int32(0)
		return d
	}
	labels := &descriptorpb.DescriptorProto{Name: proto.String("LabelsEntry"), Options: &descriptorpb.MessageOptions{MapEntry: proto.Bool(true)},
		Field: []*descriptorpb.FieldDescriptorProto{f("key", 1, opt, str, ""), f("value", 2, opt, str, "")}}
	resource := &descriptorpb.DescriptorProto{Name: proto.String("Resource"),
		Field: []*descriptorpb.FieldDescriptorProto{f("before", 1, opt, msgT, ".vc.nest.Resource.Before"), f("labels", 2, rep, msgT, ".vc.nest.Resource.LabelsEntry"),
			f("spec", 3, opt, msgT, ".vc.nest.Resource.Spec"), f("status", 4, opt, msgT, ".vc.nest.Resource.Spec.Status")},
		NestedType: []*descriptorpb.DescriptorProto{reservedMsg("Before"), labels, reservedMsg("Spec", reservedMsg("Status")),
			// short names that other messages of this file have too (Outer.Middle.Inner, Other.Leaf, Outer.Middle.MEntry):
			// anything that identifies a message by its short name confuses them
			{Name: proto.String("Inner"), Field: []*descriptorpb.FieldDescriptorProto{f("y", 1, opt, str, "")}},
			{Name: proto.String("Leaf"), Field: []*descriptorpb.FieldDescriptorProto{f("z", 1, opt, i32, "")}},
			{Name: proto.String("MEntry"), Field: []*descriptorpb.FieldDescriptorProto{f("key", 1, opt, str, ""), f("value", 2, opt, i32, "")}}}}
	// Event: oneof members (and a plain field) whose CamelCase names equal a message / an enum nested in the SAME
	// message: protogen gives the clashing wrapper types a trailing underscore (Event_Created_ next to Event_Created)
	event := &descriptorpb.DescriptorProto{Name: proto.String("Event"),
		Field: []*descriptorpb.FieldDescriptorProto{f("id", 1, opt, str, ""), f("created", 2, opt, msgT, ".vc.nest.Event.Created"),
			f("kind", 3, opt, enumT, ".vc.nest.Event.Kind"), f("deleted", 4, opt, str, ""), f("updated", 5, opt, msgT, ".vc.nest.Event.Updated"),
			f("meta", 6, opt, i32, "")},
		OneofDecl: []*descriptorpb.OneofDescriptorProto{{Name: proto.String("payload")}},
		NestedType: []*descriptorpb.DescriptorProto{
			{Name: proto.String("Created"), Field: []*descriptorpb.FieldDescriptorProto{f("by", 1, opt, str, "")}},
			{Name: proto.String("Updated"), Field: []*descriptorpb.FieldDescriptorProto{f("fields", 1, rep, str, "")}},
			{Name: proto.String("Deleted"), Field: []*descriptorpb.FieldDescriptorProto{f("hard", 1, opt, i32, "")}},
			{Name: proto.String("Meta")}},
		EnumType: []*descriptorpb.EnumDescriptorProto{enum("Kind", "KIND_UNSPECIFIED", "KIND_SYSTEM")}}
	for _, i := range []int{1, 2, 3} {
		event.Field[i].OneofIndex = proto.Int32(0)
	}
	return &descriptorpb.FileDescriptorProto{
		Name: proto.String("verifcorpus/nest/nest.proto"), Package: proto.String("vc.nest"), Syntax: proto.String("proto3"),
		Options: &descriptorpb.FileOptions{GoPackage: proto.String("github.com/cosmos/cosmos-proto/internal/verifcorpus/nest")},
		MessageType: []*descriptorpb.DescriptorProto{outer, other, flat, resource, event,
			// a message WITHOUT fields used as a namespace for nested declarations (two levels)
			{Name: proto.String("Namespace"), NestedType: []*descriptorpb.DescriptorProto{
				reservedMsg("Decl"),
				{Name: proto.String("Sub"), NestedType: []*descriptorpb.DescriptorProto{reservedMsg("Deep")}}}}},
		EnumType: []*descriptorpb.EnumDescriptorProto{enum("Top", "TOP_ZERO", "TOP_ONE"),
			// allow_alias enums: the alias declared far from (after) its canonical value in a run of more than 12 values
			// (an unstable sort by number may put it first), aliases right after their value, a hole in the range
			aliasEnum("Status", [][2]interface{}{{"STATUS_UNSPECIFIED", 0}, {"STATUS_QUEUED", 1}, {"STATUS_STARTING", 2}, {"STATUS_RUNNING", 3}, {"STATUS_PAUSED", 4},
				{"STATUS_STOPPING", 5}, {"STATUS_STOPPED", 6}, {"STATUS_FAILED", 7}, {"STATUS_RETRY", 8}, {"STATUS_LOST", 9}, {"STATUS_DONE", 10},
				{"STATUS_ARCHIVED", 11}, {"STATUS_PURGED", 12}, {"STATUS_ACTIVE", 3}}),
			aliasEnum("Phase", [][2]interface{}{{"PHASE_A", 0}, {"PHASE_B", 1}, {"PHASE_C", 2}, {"PHASE_D", 3}, {"PHASE_E", 4}, {"PHASE_F", 5}, {"PHASE_G", 6}, {"PHASE_H", 7},
				{"PHASE_I", 8}, {"PHASE_J", 9}, {"PHASE_K", 10}, {"PHASE_L", 11}, {"PHASE_M", 12}, {"PHASE_N", 13}, {"PHASE_O", 14}, {"PHASE_OLD_B", 1}, {"PHASE_OLD_F", 5}, {"PHASE_OLD_A", 0}}),
			aliasEnum("Level", [][2]interface{}{{"LEVEL_LOW", 0}, {"LEVEL_MID", 1}, {"LEVEL_NORMAL", 1}, {"LEVEL_TOP", 3}})},
	}
}

func aliasEnum(name string, vals [][2]interface{}) *descriptorpb.EnumDescriptorProto {
	e := &descriptorpb.EnumDescriptorProto{Name: proto.String(name), Options: &descriptorpb.EnumOptions{AllowAlias: proto.Bool(true)}}
	for _, v := range vals {
		e.Value = append(e.Value, &descriptorpb.EnumValueDescriptorProto{Name: proto.String(v[0].(string)), Number: proto.Int32(int32(v[1].(int)))})
	}
	return e
}

// Dup: two files in different Go packages declaring messages with the SAME Go names at different
// positions of the flattened message order (anything keyed by Go name across one plugin invocation
// confuses them), for the co-generation independence check.
func Dup() []*Schema {
	a := corpusSchema("dupa")
	a.Msgs = []Msg{
		{Name: "A", Fields: []Field{{Num: 1, Kind: Int32, Shape: Singular}, {Num: 2, IsMsg: true, Msg: 1, Shape: Singular}}},
		{Name: "B", Fields: []Field{{Num: 1, Kind: String, Shape: Singular}, {Num: 2, Kind: Sint64, Shape: Map, Key: String}}},
		{Name: "Params", Fields: []Field{{Num: 1, Kind: Bool, Shape: Singular}}},
	}
	b := corpusSchema("dupb")
	b.Msgs = []Msg{
		{Name: "Params", Fields: []Field{{Num: 3, Kind: Bytes, Shape: Singular}, {Num: 1, IsMsg: true, Msg: 2, Shape: Repeated}}},
		{Name: "B", Fields: []Field{{Num: 7, Kind: Double, Shape: Singular}}},
		{Name: "A", Fields: []Field{{Num: 5, Kind: Uint64, Shape: Oneof, Group: 0}, {Num: 6, IsMsg: true, Msg: 1, Shape: Oneof, Group: 0}}},
		// uses the SAME-NAMED types of the other Go package next to its own (type tables keyed by a name
		// without the import path confuse them)
		{Name: "User", Fields: []Field{
			{Num: 1, IsMsg: true, Msg: 0, Shape: Singular},
			{Num: 2, IsMsg: true, Extern: "vc.dupa.Params", Shape: Singular},
			{Num: 3, IsMsg: true, Extern: "vc.dupa.B", Shape: Repeated},
			{Num: 4, IsMsg: true, Msg: 1, Shape: Repeated},
			{Num: 5, IsMsg: true, Extern: "vc.dupa.A", Shape: Map, Key: String},
		}},
	}
	b.Imports = []string{"verifcorpus/dupa/dupa.proto"}
	return []*Schema{a, b}
}

// constructMatrix: one message holding one instance of every construct family for which a generator could emit
// something once per Go package instead of once per file (helpers, sort functions, pooled buffers, cached
// descriptors): maps over every key-kind family, packed and unpacked lists, oneofs of several kinds, bytes. Every
// file of the same-package corpora gets its own copy, so "emitted once per package / per plugin run" shows either
// as content that depends on what is co-generated (C13) or as a package that does not compile (C12).
func constructMatrix(name string) Msg {
	return Msg{Name: name, OneofNames: []string{"pick"}, Fields: []Field{
		{Num: 1, Kind: String, Shape: Map, Key: Bool},
		{Num: 2, Kind: Int64, Shape: Map, Key: Int32},
		{Num: 3, Kind: Bytes, Shape: Map, Key: Uint64},
		{Num: 4, Kind: Double, Shape: Map, Key: String},
		{Num: 5, Kind: Bool, Shape: Map, Key: Sint64},
		{Num: 6, Kind: Float, Shape: Map, Key: Fixed32},
		{Num: 7, Kind: Sint32, Shape: Map, Key: Sfixed64},
		{Num: 8, Kind: Bool, Shape: Repeated, Packed: true},
		{Num: 9, Kind: Sint32, Shape: Repeated, Packed: true},
		{Num: 10, Kind: Fixed64, Shape: Repeated, Packed: false},
		{Num: 11, Kind: Bytes, Shape: Repeated},
		{Num: 12, Kind: Bool, Shape: Oneof, Group: 0},
		{Num: 13, Kind: Bytes, Shape: Oneof, Group: 0},
		{Num: 14, Kind: Sint64, Shape: Oneof, Group: 0},
		{Num: 15, Kind: Float, Shape: Singular},
		{Num: 16, Kind: Bytes, Shape: Singular},
	}}
}

// SamePkg: five files in ONE Go package, the last importing the other four (same-package imports are
// initialised by file_<dep>_proto_init() calls inside the importer's init function).
func SamePkg() []*Schema {
	var out []*Schema
	mk := func(id string, msgs []Msg, imports []string) *Schema {
		sc := corpusSchema(id)
		sc.Package = "vc.sp"
		sc.GoPkg = "github.com/cosmos/cosmos-proto/internal/verifcorpus/sp"
		sc.Dir = "sp"
		sc.NoEnum = id != "spa"
		sc.Msgs = msgs
		sc.Imports = imports
		return sc
	}
	for i, n := range []string{"spa", "spb", "spc", "spd"} {
		out = append(out, mk(n, []Msg{{Name: "D" + string(rune('A'+i)), Fields: []Field{{Num: 1, Kind: allKinds[i*3], Shape: Singular}, {Num: 2, Kind: String, Shape: Repeated}}},
			constructMatrix("K" + string(rune('A'+i)))}, nil))
	}
	out = append(out, mk("spe", []Msg{{Name: "Main", Fields: []Field{
		{Num: 1, IsMsg: true, Extern: "vc.sp.DA", Shape: Singular},
		{Num: 2, IsMsg: true, Extern: "vc.sp.DB", Shape: Repeated},
		{Num: 3, IsMsg: true, Extern: "vc.sp.DC", Shape: Map, Key: String},
		{Num: 4, IsMsg: true, Extern: "vc.sp.DD", Shape: Oneof, Group: 0},
		{Num: 5, Kind: Int64, Shape: Oneof, Group: 0},
	}}}, []string{"verifcorpus/sp/spa.proto", "verifcorpus/sp/spb.proto", "verifcorpus/sp/spc.proto", "verifcorpus/sp/spd.proto"}))
	return out
}

// Shuffle: Fisher-Yates with the harness PRNG.
func (r *Rand) Shuffle(n int, swap func(i, j int)) {
	for i := n - 1; i > 0; i-- {
		swap(i, r.Intn(i+1))
	}
}

// Alias: two Go packages whose import paths end in the same element (…/ax/v1 and …/ay/v1, so that a file using
// both must alias one of them) and two files of ONE Go package that import different subsets of them. protogen
// assigns import aliases per generated file; anything remembered per Go package across files gets it wrong.
// The last two are generated in one request (GroupOf).
func Alias() []*Schema {
	mk := func(id, dir, pkg string, msgs []Msg, imports []string) *Schema {
		sc := corpusSchema(id)
		sc.Dir = dir
		sc.Package = pkg
		sc.GoPkg = "github.com/cosmos/cosmos-proto/internal/verifcorpus/" + dir
		sc.Msgs = msgs
		sc.Imports = imports
		return sc
	}
	ax := mk("ax", "ax/v1", "vc.ax.v1", []Msg{{Name: "Price", Fields: []Field{{Num: 1, Kind: Int64, Shape: Singular}}}}, nil)
	ay := mk("ay", "ay/v1", "vc.ay.v1", []Msg{{Name: "Price", Fields: []Field{{Num: 1, Kind: String, Shape: Singular}}}, {Name: "Tag", Fields: []Field{{Num: 1, Kind: Bool, Shape: Singular}}}}, nil)
	one := mk("appone", "app", "vc.app", []Msg{{Name: "One", Fields: []Field{
		{Num: 1, IsMsg: true, Extern: "vc.ax.v1.Price", Shape: Oneof, Group: 0},
		{Num: 2, IsMsg: true, Extern: "vc.ay.v1.Price", Shape: Oneof, Group: 0},
		{Num: 3, IsMsg: true, Extern: "vc.ay.v1.Price", Shape: Map, Key: String},
		{Num: 4, IsMsg: true, Extern: "vc.ax.v1.Price", Shape: Repeated},
	}}}, []string{"verifcorpus/ax/v1/ax.proto", "verifcorpus/ay/v1/ay.proto"})
	two := mk("apptwo", "app", "vc.app", []Msg{{Name: "Two", Fields: []Field{
		{Num: 1, IsMsg: true, Extern: "vc.ay.v1.Price", Shape: Map, Key: Int32},
		{Num: 2, IsMsg: true, Extern: "vc.ay.v1.Tag", Shape: Oneof, Group: 0},
		{Num: 3, Kind: String, Shape: Oneof, Group: 0},
		{Num: 4, IsMsg: true, Extern: "vc.ay.v1.Price", Shape: Singular},
	}}}, []string{"verifcorpus/ay/v1/ay.proto"})
	two.NoEnum = true
	three := mk("appthree", "app", "vc.app", []Msg{{Name: "Three", Fields: []Field{
		{Num: 1, IsMsg: true, Extern: "vc.ax.v1.Price", Shape: Map, Key: Bool},
		{Num: 2, IsMsg: true, Extern: "vc.ax.v1.Price", Shape: Oneof, Group: 0},
		{Num: 3, Kind: Bytes, Shape: Oneof, Group: 0},
	}}}, []string{"verifcorpus/ax/v1/ax.proto"})
	three.NoEnum = true
	return []*Schema{ax, ay, one, two, three}
}

// NoMessages: files of one Go package of which two declare NO top-level message — one only an enum, one only a
// service — and a third that uses the enum and supplies the service's request/response types. All are requested;
// every requested proto3 file must be answered (the enum type, the raw descriptor and the init function live there).
func NoMessages() []*descriptorpb.FileDescriptorProto {
	opt := descriptorpb.FieldDescriptorProto_LABEL_OPTIONAL.Enum()
	rep := descriptorpb.FieldDescriptorProto_LABEL_REPEATED.Enum()
	gopkg := &descriptorpb.FileOptions{GoPackage: proto.String("github.com/cosmos/cosmos-proto/internal/verifcorpus/nomsg")}
	kinds := &descriptorpb.FileDescriptorProto{
		Name: proto.String("verifcorpus/nomsg/kinds.proto"), Package: proto.String("vc.nomsg"), Syntax: proto.String("proto3"), Options: gopkg,
		EnumType: []*descriptorpb.EnumDescriptorProto{{Name: proto.String("Kind"), Value: []*descriptorpb.EnumValueDescriptorProto{
			{Name: proto.String("KIND_UNSPECIFIED"), Number: proto.Int32(0)}, {Name: proto.String("KIND_A"), Number: proto.Int32(1)}, {Name: proto.String("KIND_B"), Number: proto.Int32(7)}}}},
	}
	types := &descriptorpb.FileDescriptorProto{
		Name: proto.String("verifcorpus/nomsg/types.proto"), Package: proto.String("vc.nomsg"), Syntax: proto.String("proto3"), Options: gopkg,
		Dependency: []string{"verifcorpus/nomsg/kinds.proto"},
		MessageType: []*descriptorpb.DescriptorProto{
			{Name: proto.String("Req"), Field: []*descriptorpb.FieldDescriptorProto{
				{Name: proto.String("kind"), JsonName: proto.String("kind"), Number: proto.Int32(1), Label: opt, Type: descriptorpb.FieldDescriptorProto_TYPE_ENUM.Enum(), TypeName: proto.String(".vc.nomsg.Kind")},
				{Name: proto.String("kinds"), JsonName: proto.String("kinds"), Number: proto.Int32(2), Label: rep, Type: descriptorpb.FieldDescriptorProto_TYPE_ENUM.Enum(), TypeName: proto.String(".vc.nomsg.Kind")}}},
			{Name: proto.String("Resp"), Field: []*descriptorpb.FieldDescriptorProto{
				{Name: proto.String("ok"), JsonName: proto.String("ok"), Number: proto.Int32(1), Label: opt, Type: descriptorpb.FieldDescriptorProto_TYPE_BOOL.Enum()}}},
		},
	}
	service := &descriptorpb.FileDescriptorProto{
		Name: proto.String("verifcorpus/nomsg/service.proto"), Package: proto.String("vc.nomsg"), Syntax: proto.String("proto3"), Options: gopkg,
		Dependency: []string{"verifcorpus/nomsg/types.proto"},
		Service: []*descriptorpb.ServiceDescriptorProto{{Name: proto.String("Directory"), Method: []*descriptorpb.MethodDescriptorProto{
			{Name: proto.String("Lookup"), InputType: proto.String(".vc.nomsg.Req"), OutputType: proto.String(".vc.nomsg.Resp")}}}},
	}
	return []*descriptorpb.FileDescriptorProto{kinds, types, service}
}

// Required: generated proto3 messages from which a proto2 message WITH REQUIRED FIELDS is reachable
// (google.protobuf.UninterpretedOption.NamePart), directly and through a cycle of mutually recursive messages in
// which the field into the cycle is declared before the field towards the required fields, and through list / map /
// oneof positions. Only the "initialised?" pass of the reflect engine uses these types.
func Required() *descriptorpb.FileDescriptorProto {
	opt := descriptorpb.FieldDescriptorProto_LABEL_OPTIONAL.Enum()
	rep := descriptorpb.FieldDescriptorProto_LABEL_REPEATED.Enum()
	msgT := descriptorpb.FieldDescriptorProto_TYPE_MESSAGE.Enum()
	str := descriptorpb.FieldDescriptorProto_TYPE_STRING.Enum()
	f := func(name string, num int32, label *descriptorpb.FieldDescriptorProto_Label, typ *descriptorpb.FieldDescriptorProto_Type, tn string) *descriptorpb.FieldDescriptorProto {
		fp := &descriptorpb.FieldDescriptorProto{Name: proto.String(name), JsonName: proto.String(jsonName(name)), Number: proto.Int32(num), Label: label, Type: typ}
		if tn != "" {
			fp.TypeName = proto.String(tn)
		}
		return fp
	}
	const part = ".google.protobuf.UninterpretedOption.NamePart"
	tree := &descriptorpb.DescriptorProto{Name: proto.String("Tree"), Field: []*descriptorpb.FieldDescriptorProto{
		f("name", 1, opt, str, ""), f("branches", 2, rep, msgT, ".vc.req.Branch"), f("part", 3, opt, msgT, part)}}
	branch := &descriptorpb.DescriptorProto{Name: proto.String("Branch"), Field: []*descriptorpb.FieldDescriptorProto{f("sub", 1, opt, msgT, ".vc.req.Tree")}}
	entry := &descriptorpb.DescriptorProto{Name: proto.String("ByKeyEntry"), Options: &descriptorpb.MessageOptions{MapEntry: proto.Bool(true)},
		Field: []*descriptorpb.FieldDescriptorProto{f("key", 1, opt, str, ""), f("value", 2, opt, msgT, part)}}
	holder := &descriptorpb.DescriptorProto{Name: proto.String("Holder"),
		Field: []*descriptorpb.FieldDescriptorProto{f("parts", 1, rep, msgT, part), f("by_key", 2, rep, msgT, ".vc.req.Holder.ByKeyEntry"),
			f("one_part", 3, opt, msgT, part), f("one_text", 4, opt, str, ""), f("tree", 5, opt, msgT, ".vc.req.Tree"), f("plain", 6, opt, msgT, ".vc.req.Plain")},
		OneofDecl:  []*descriptorpb.OneofDescriptorProto{{Name: proto.String("choice")}},
		NestedType: []*descriptorpb.DescriptorProto{entry}}
	holder.Field[2].OneofIndex = proto.Int32(0)
	holder.Field[3].OneofIndex = proto.Int32(0)
	plain := &descriptorpb.DescriptorProto{Name: proto.String("Plain"), Field: []*descriptorpb.FieldDescriptorProto{f("s", 1, opt, str, ""), f("again", 2, opt, msgT, ".vc.req.Plain")}}
	return &descriptorpb.FileDescriptorProto{
		Name: proto.String("verifcorpus/req/req.proto"), Package: proto.String("vc.req"), Syntax: proto.String("proto3"),
		Dependency:  []string{"google/protobuf/descriptor.proto"},
		Options:     &descriptorpb.FileOptions{GoPackage: proto.String("github.com/cosmos/cosmos-proto/internal/verifcorpus/req")},
		MessageType: []*descriptorpb.DescriptorProto{tree, branch, holder, plain},
	}
}

// SamePkgSplit: like SamePkg, but every file is generated by its OWN plugin invocation (one protoc run per file)
// and the importing file's Go file sorts BEFORE the imported ones (its Go init runs first).
func SamePkgSplit() []*Schema {
	var out []*Schema
	mk := func(id string, msgs []Msg, imports []string) *Schema {
		sc := corpusSchema(id)
		sc.Dir = "sq"
		sc.Package = "vc.sq"
		sc.GoPkg = "github.com/cosmos/cosmos-proto/internal/verifcorpus/sq"
		sc.NoEnum = id != "sqb"
		sc.Msgs = msgs
		sc.Imports = imports
		return sc
	}
	for i, n := range []string{"sqb", "sqc", "sqd", "sqe"} {
		out = append(out, mk(n, []Msg{{Name: "Q" + string(rune('A'+i)), Fields: []Field{{Num: 1, Kind: allKinds[i*3+1], Shape: Singular}, {Num: 2, Kind: Enum, Shape: Repeated, Packed: true}}},
			constructMatrix("KQ" + string(rune('A'+i)))},
			map[bool][]string{true: nil, false: {"verifcorpus/sq/sqb.proto"}}[n == "sqb"]))
	}
	out = append(out, mk("sqa", []Msg{{Name: "First", Fields: []Field{
		{Num: 1, IsMsg: true, Extern: "vc.sq.QA", Shape: Singular},
		{Num: 2, IsMsg: true, Extern: "vc.sq.QB", Shape: Repeated},
		{Num: 3, IsMsg: true, Extern: "vc.sq.QC", Shape: Map, Key: String},
		{Num: 4, IsMsg: true, Extern: "vc.sq.QD", Shape: Oneof, Group: 0},
		{Num: 5, Kind: Enum, Shape: Oneof, Group: 0},
		{Num: 6, Kind: Enum, Shape: Singular},
	}}}, []string{"verifcorpus/sq/sqb.proto", "verifcorpus/sq/sqc.proto", "verifcorpus/sq/sqd.proto", "verifcorpus/sq/sqe.proto"}))
	return out
}


// Ext: a proto3 file that DECLARES extensions (custom options) of several different extendee messages, at file level
// and nested in a message, next to a message and a service: the generator groups the extension variables by
// extendee ("Extension fields to T"), and the registered file descriptor must list them as the request does.
func Ext() *descriptorpb.FileDescriptorProto {
	opt := descriptorpb.FieldDescriptorProto_LABEL_OPTIONAL.Enum()
	rep := descriptorpb.FieldDescriptorProto_LABEL_REPEATED.Enum()
	ext := func(name string, num int32, label *descriptorpb.FieldDescriptorProto_Label, typ descriptorpb.FieldDescriptorProto_Type, tn, extendee string) *descriptorpb.FieldDescriptorProto {
		fp := &descriptorpb.FieldDescriptorProto{Name: proto.String(name), JsonName: proto.String(jsonName(name)), Number: proto.Int32(num), Label: label, Type: typ.Enum(),
			Extendee: proto.String(".google.protobuf." + extendee)}
		if tn != "" {
			fp.TypeName = proto.String(tn)
		}
		if label == opt {
			fp.Proto3Optional = nil
		}
		return fp
	}
	S, I32, B, M, I64, E := descriptorpb.FieldDescriptorProto_TYPE_STRING, descriptorpb.FieldDescriptorProto_TYPE_INT32, descriptorpb.FieldDescriptorProto_TYPE_BOOL,
		descriptorpb.FieldDescriptorProto_TYPE_MESSAGE, descriptorpb.FieldDescriptorProto_TYPE_INT64, descriptorpb.FieldDescriptorProto_TYPE_ENUM
	holder := &descriptorpb.DescriptorProto{Name: proto.String("Holder"),
		Field: []*descriptorpb.FieldDescriptorProto{
			{Name: proto.String("name"), JsonName: proto.String("name"), Number: proto.Int32(1), Label: opt, Type: S.Enum()},
			{Name: proto.String("level"), JsonName: proto.String("level"), Number: proto.Int32(2), Label: opt, Type: E.Enum(), TypeName: proto.String(".vc.ext.Level")}},
		Extension: []*descriptorpb.FieldDescriptorProto{
			ext("quota", 50010, opt, I64, "", "ServiceOptions"),
			ext("inner_tag", 50011, opt, S, "", "FieldOptions"),
			ext("one_of_hint", 50012, opt, B, "", "OneofOptions")}}
	return &descriptorpb.FileDescriptorProto{
		Name: proto.String("verifcorpus/ext/ext.proto"), Package: proto.String("vc.ext"), Syntax: proto.String("proto3"),
		Dependency: []string{"google/protobuf/descriptor.proto"},
		Options:    &descriptorpb.FileOptions{GoPackage: proto.String("github.com/cosmos/cosmos-proto/internal/verifcorpus/ext")},
		MessageType: []*descriptorpb.DescriptorProto{holder,
			{Name: proto.String("Ping"), Field: []*descriptorpb.FieldDescriptorProto{{Name: proto.String("n"), JsonName: proto.String("n"), Number: proto.Int32(1), Label: opt, Type: I32.Enum()}}}},
		EnumType: []*descriptorpb.EnumDescriptorProto{{Name: proto.String("Level"), Value: []*descriptorpb.EnumValueDescriptorProto{
			{Name: proto.String("LEVEL_UNSET"), Number: proto.Int32(0)}, {Name: proto.String("LEVEL_HIGH"), Number: proto.Int32(5)}}}},
		Service: []*descriptorpb.ServiceDescriptorProto{{Name: proto.String("Pinger"), Method: []*descriptorpb.MethodDescriptorProto{
			{Name: proto.String("Ping"), InputType: proto.String(".vc.ext.Ping"), OutputType: proto.String(".vc.ext.Holder")}}}},
		Extension: []*descriptorpb.FieldDescriptorProto{
			ext("tag", 50001, opt, S, "", "FieldOptions"),
			ext("audited", 50002, opt, B, "", "MessageOptions"),
			ext("weight", 50003, opt, I32, "", "FieldOptions"),
			ext("owner", 50004, opt, S, "", "FileOptions"),
			ext("hint", 50005, opt, M, ".vc.ext.Holder", "MethodOptions"),
			ext("labels", 50006, rep, S, "", "MessageOptions"),
			ext("severity", 50007, opt, E, ".vc.ext.Level", "EnumValueOptions"),
			ext("family", 50008, opt, S, "", "EnumOptions"),
			ext("retries", 50009, opt, I32, "", "MethodOptions")},
	}
}
