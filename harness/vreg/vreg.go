// Package vreg is the registry that generated packages (corpus and checked-in) fill from a generated
// zz_registry.go: prototypes, oneof wrapper types, and the struct-based (slow) reflection accessor.
package vreg

import (
	"reflect"

	"google.golang.org/protobuf/proto"
	"google.golang.org/protobuf/reflect/protoreflect"
)

type MsgInfo struct {
	Proto    proto.Message                // (*T)(nil)
	Wrappers map[int]interface{}          // field number -> (*Wrapper)(nil)
	Slow     func(proto.Message) protoreflect.Message
}

type Pkg struct {
	Name     string // corpus id or go package path
	GoPath   string
	Messages []MsgInfo
}

var Pkgs []Pkg
var byName = map[string]*MsgInfo{}

func Register(p Pkg) {
	Pkgs = append(Pkgs, p)
	for i := range p.Messages {
		mi := &p.Messages[i]
		// full name through the prototype's descriptor (nil receiver is fine for Descriptor())
		name := string(mi.Proto.ProtoReflect().Descriptor().FullName())
		byName[name] = mi
	}
}

func Lookup(full string) *MsgInfo { return byName[full] }

func IsPulsar(full protoreflect.FullName) bool { return byName[string(full)] != nil }

func TypeOf(full string) reflect.Type {
	if mi := byName[full]; mi != nil {
		return reflect.TypeOf(mi.Proto)
	}
	return nil
}

func WrapperOf(full string, num int) reflect.Type {
	if mi := byName[full]; mi != nil {
		if w, ok := mi.Wrappers[num]; ok {
			return reflect.TypeOf(w)
		}
	}
	return nil
}
