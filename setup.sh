#!/bin/sh
# Build the framework from files on disk only (offline): Lean model, proofs, driver.
set -e
cd "$(dirname "$0")"
python3 tools/extract.py "${VERIF_REPO:-/repo}" lean/Pulsar/Extracted.lean || true
(cd lean && lake build Pulsar driver)
echo "setup done"
