#!/bin/sh
# Build the framework from files on disk only (offline): Lean model, proofs, driver.
set -e
cd "$(dirname "$0")"
python3 tools/extract.py "${VERIF_REPO:-/repo}" lean/Pulsar/Extracted.lean || true
(cd lean && lake build Pulsar driver)
# the source-level theorem files (about lean/Pulsar/ExtractedFns.lean as committed; every check regenerates that file
# from the working tree and rebuilds what changed): built here only to make the first checks faster
(cd lean && lake build Pulsar.Properties.C15Src Pulsar.Properties.C15SrcSoz Pulsar.Properties.C15SrcEnc Pulsar.Properties.C15SrcSkip \
   Pulsar.Properties.C04Src Pulsar.Properties.C05Src Pulsar.Properties.C06Src Pulsar.Properties.C14Src Pulsar.Properties.C17Src >/dev/null 2>&1) || true
echo "setup done"
